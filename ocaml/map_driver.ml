(* Line-oriented driver around the extracted SmallMap model (coq/Map/Cases.v).
   input line :  <id>;<h0>,<h1>,...;<op>;<op>;...      (h_i = hash class of key id i)
     op = ins k v | insu k v | rem k | remi i | pop | clear | retain k,k,..|- d | sort | rev | dropidx
        | reserve n | extend k:v,k:v,..|- | entry k v | emod k d v | withcap n | clone
   output     :  <id> TAB <step> TAB <step> ...   one step string per op, in the format of the maps harness:
                 RET|ENTRIES|IDX|LOOKUPS
                 and a line "SPECDIFF <id> <step>" when the model and the Coq specification (Map/Spec.v) differ
   last line  :  done <number of cases> *)
open Map_model

let rec nat_of_int (n : int) : nat = if n <= 0 then O else S (nat_of_int (n - 1))
let int_of_nat (n : nat) : int =
  let rec go acc = function O -> acc | S m -> go (acc + 1) m in go 0 n

let nat_s s = nat_of_int (int_of_string s)

let split c s = if s = "" || s = "-" then [] else String.split_on_char c s

let parse_op (s : string) : cop =
  match String.split_on_char ' ' (String.trim s) with
  | ["ins"; k; v] -> CIns (nat_s k, nat_s v)
  | ["insu"; k; v] -> CInsU (nat_s k, nat_s v)
  | ["rem"; k] -> CRem (nat_s k)
  | ["remi"; i] -> CRemI (nat_s i)
  | ["pop"] -> CPop
  | ["clear"] -> CClear
  | ["retain"; ks; d] -> CRetain (List.map nat_s (split ',' ks), nat_s d)
  | ["sort"] -> CSort
  | ["rev"] -> CRev
  | ["dropidx"] -> CDropIdx
  | ["reserve"; n] -> CReserve (nat_s n)
  | ["extend"; kvs] ->
    CExtend (List.map (fun kv -> match String.split_on_char ':' kv with
        | [k; v] -> (nat_s k, nat_s v) | _ -> failwith ("bad pair " ^ kv)) (split ',' kvs))
  | ["entry"; k; v] -> CEntry (nat_s k, nat_s v)
  | ["emod"; k; d; v] -> CEMod (nat_s k, nat_s d, nat_s v)
  | ["withcap"; n] -> CWithCap (nat_s n)
  | ["clone"] -> CClone
  | _ -> failwith ("bad op: " ^ s)

let i = int_of_nat
let kv_s (k, v) = Printf.sprintf "%d:%d" (i k) (i v)

let ret_s = function
  | RUnit -> "-"
  | ROptV None -> "N"
  | ROptV (Some v) -> "V" ^ string_of_int (i v)
  | ROptKV None -> "N"
  | ROptKV (Some kv) -> "E" ^ kv_s kv
  | RVal v -> "V" ^ string_of_int (i v)

let obs_s (o : obs) : string =
  let entries = String.concat "," (List.map kv_s o.o_entries) in
  let idx = match o.o_idx with
    | None -> "-"
    | Some l ->
      let l = List.sort compare (List.map (fun (j, b) -> (i j, b)) l) in
      String.concat "," (List.map (fun (j, b) -> string_of_int j ^ (if b then "+" else "!")) l) in
  let look = String.concat "," (List.map (function None -> "x" | Some kv -> kv_s kv) o.o_look) in
  String.concat "|" [ret_s o.o_ret; entries; idx; look]

let () =
  let ic = open_in Sys.argv.(1) in
  let n = ref 0 in
  let buf = Buffer.create 65536 in
  (try
     while true do
       let line = input_line ic in
       if String.trim line <> "" then begin
         match String.split_on_char ';' line with
         | id :: hs :: ops ->
           incr n;
           let hs = List.map nat_s (split ',' hs) in
           let ops = List.map parse_op (List.filter (fun s -> String.trim s <> "") ops) in
           let res = run_case hs ops in
           Buffer.clear buf;
           Buffer.add_string buf id;
           List.iter (fun o -> Buffer.add_char buf '\t'; Buffer.add_string buf (obs_s o)) res;
           print_endline (Buffer.contents buf);
           (* cross-check against the Coq specification replayed on the same history *)
           let sp = spec_case ops in
           let rec cmp k a b = match a, b with
             | o :: ra, (r, l) :: rb ->
               if ret_s o.o_ret <> ret_s r || List.map kv_s o.o_entries <> List.map kv_s l
               then Printf.printf "SPECDIFF %s %d\n" id k else cmp (k + 1) ra rb
             | [], [] -> ()
             | _ -> Printf.printf "SPECDIFF %s %d\n" id k in
           cmp 0 res sp
         | _ -> failwith ("bad line: " ^ line)
       end
     done
   with End_of_file -> ());
  Printf.printf "done %d\n" !n
