(* Line-oriented driver around the extracted Ty model (coq/Ty/Cases.v).
   input line :  <id> <type tokens> ; <value tokens> ; <value tokens> ...
     type tokens (prefix):  A any | N never | B<0..5> base (None bool float int range str) | I iterable | C callable
                            | L t | S t | O t (tuple[t, ...]) | D k v | T <n> t1..tn | U <n> t1..tn | R <id> | E <id>
     value tokens (prefix): n none | b bool | i int | g big int | f float | s str | l <n> v.. | t <n> v.. | e <n> v.. (set)
                            | d <n> k1 v1 .. | r range | u struct | c function | P <id> record type | Q <id> enum type
                            | y type value | p <id> record instance | q <id> enum member
   output     :  <id> <wf><mergefree> <4 chars per value: spec, normalised meaning, model check, model check without merge>
   last line  :  done <number of lines> *)
open Ty_model

let rec pos_of_int (n : int) : positive =
  if n = 1 then XH else if n land 1 = 0 then XO (pos_of_int (n lsr 1)) else XI (pos_of_int (n lsr 1))
let n_of_int (n : int) : n = if n = 0 then N0 else Npos (pos_of_int n)

let base_of_int = function
  | 0 -> BNone | 1 -> BBool | 2 -> BFloat | 3 -> BInt | 4 -> BRange | 5 -> BStr
  | _ -> failwith "bad base"

(* parsers over a mutable token cursor *)
let rec parse_ty (toks : string array) (pos : int ref) : ty =
  let t = toks.(!pos) in
  incr pos;
  let many () =
    let n = int_of_string toks.(!pos) in
    incr pos;
    let l = ref [] in
    for _ = 1 to n do l := parse_ty toks pos :: !l done;
    List.rev !l in
  match t with
  | "A" -> TAny | "N" -> TNever | "I" -> TIter | "C" -> TCallable
  | "L" -> TList (parse_ty toks pos)
  | "S" -> TSet (parse_ty toks pos)
  | "O" -> TTupleOf (parse_ty toks pos)
  | "D" -> let k = parse_ty toks pos in let v = parse_ty toks pos in TDict (k, v)
  | "T" -> TTuple (many ())
  | "U" -> TUnion (many ())
  | "R" -> let i = int_of_string toks.(!pos) in incr pos; TRecord (n_of_int i)
  | "E" -> let i = int_of_string toks.(!pos) in incr pos; TEnum (n_of_int i)
  | _ when String.length t = 2 && t.[0] = 'B' -> TBase (base_of_int (Char.code t.[1] - 48))
  | _ -> failwith ("bad type token " ^ t)

let rec parse_val (toks : string array) (pos : int ref) : value =
  let t = toks.(!pos) in
  incr pos;
  let count () = let n = int_of_string toks.(!pos) in incr pos; n in
  let many () =
    let n = count () in
    let l = ref [] in
    for _ = 1 to n do l := parse_val toks pos :: !l done;
    List.rev !l in
  match t with
  | "n" -> VNone | "b" -> VBool | "i" -> VInt false | "g" -> VInt true | "f" -> VFloat | "s" -> VStr
  | "l" -> VList (many ())
  | "t" -> VTuple (many ())
  | "e" -> VSet (many ())
  | "d" ->
    let n = count () in
    let l = ref [] in
    for _ = 1 to n do
      let k = parse_val toks pos in
      let v = parse_val toks pos in
      l := (k, v) :: !l
    done;
    VDict (List.rev !l)
  | "r" -> VRange | "u" -> VStruct | "c" -> VFunc | "y" -> VTypeVal
  | "P" -> VRecordType (n_of_int (count ()))
  | "Q" -> VEnumType (n_of_int (count ()))
  | "p" -> VRecord (n_of_int (count ()))
  | "q" -> VEnumVal (n_of_int (count ()))
  | _ -> failwith ("bad value token " ^ t)

let bit b = if b then '1' else '0'

let () =
  let ic = open_in Sys.argv.(1) in
  let n = ref 0 in
  (try
     while true do
       let line = input_line ic in
       if String.trim line <> "" then begin
         incr n;
         let toks = Array.of_list (List.filter (fun s -> s <> "") (String.split_on_char ' ' line)) in
         let id = toks.(0) in
         let pos = ref 1 in
         let ty = parse_ty toks pos in
         let buf = Buffer.create 64 in
         let (wf, mf) = info ty in
         Buffer.add_char buf (bit wf);
         Buffer.add_char buf (bit mf);
         Buffer.add_char buf ' ';
         while !pos < Array.length toks do
           if toks.(!pos) <> ";" then failwith ("expected ; in " ^ line);
           incr pos;
           let v = parse_val toks pos in
           let (spec, (nm, chk)) = run ty v in
           Buffer.add_char buf (bit spec);
           Buffer.add_char buf (bit nm);
           Buffer.add_char buf (bit chk);
           Buffer.add_char buf (bit (run_nomerge ty v))
         done;
         Printf.printf "%s %s\n" id (Buffer.contents buf)
       end
     done
   with End_of_file -> ());
  Printf.printf "done %d\n" !n
