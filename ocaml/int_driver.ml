(* Line-oriented driver around the extracted Int model.
   input line :  <id> <op> <a-hex> <b-hex> <kind> <value>
     kind I/G = integer result (small/big representation) with hex value; B = bool 0/1; E = error name
   output     :  one line "<id> <model outcome>" for every case where model and implementation differ *)
open Int_model

let z_of_hex (s : string) : z =
  let neg = String.length s > 0 && s.[0] = '-' in
  let s = if neg then String.sub s 1 (String.length s - 1) else s in
  let p = ref None in
  String.iter (fun c ->
    let d = match c with
      | '0'..'9' -> Char.code c - 48
      | 'a'..'f' -> Char.code c - 87
      | 'A'..'F' -> Char.code c - 55
      | _ -> failwith ("bad hex digit in " ^ s) in
    for i = 3 downto 0 do
      let bit = (d lsr i) land 1 = 1 in
      p := (match !p with
            | None -> if bit then Some XH else None
            | Some q -> Some (if bit then XI q else XO q))
    done) s;
  match !p with
  | None -> Z0
  | Some q -> if neg then Zneg q else Zpos q

let hex_of_pos (p : positive) : string =
  let bits = ref [] in           (* collected LSB first, so the list ends up MSB first *)
  let rec go p = match p with
    | XH -> bits := 1 :: !bits
    | XO q -> bits := 0 :: !bits; go q
    | XI q -> bits := 1 :: !bits; go q in
  go p;
  let l = Array.of_list !bits in
  let n = Array.length l in
  let pad = (4 - n mod 4) mod 4 in
  let b = Buffer.create (n / 4 + 2) in
  let get i = if i < pad then 0 else l.(i - pad) in
  let total = n + pad in
  let i = ref 0 in
  while !i < total do
    let d = get !i * 8 + get (!i + 1) * 4 + get (!i + 2) * 2 + get (!i + 3) in
    Buffer.add_char b "0123456789abcdef".[d];
    i := !i + 4
  done;
  Buffer.contents b

let hex_of_z = function
  | Z0 -> "0"
  | Zpos p -> hex_of_pos p
  | Zneg p -> "-" ^ hex_of_pos p

let op_of = function
  | "OAdd" -> OAdd | "OSub" -> OSub | "OMul" -> OMul | "ODiv" -> ODiv | "OMod" -> OMod
  | "OAnd" -> OAnd | "OOr" -> OOr | "OXor" -> OXor | "OShl" -> OShl | "OShr" -> OShr
  | "OEq" -> OEq | "ONe" -> ONe | "OLt" -> OLt | "OLe" -> OLe | "OGt" -> OGt | "OGe" -> OGe
  | "ONeg" -> ONeg | "OInv" -> OInv | "OPos" -> OPos | "OAbs" -> OAbs
  | s -> failwith ("bad op " ^ s)

let err_of = function
  | "FloorDivisionByZero" -> FloorDivisionByZero | "ModuloByZero" -> ModuloByZero
  | "LeftShiftOverflow" -> LeftShiftOverflow | "LeftShiftNegative" -> LeftShiftNegative
  | "RightShiftNegative" -> RightShiftNegative | "Unreachable" -> Unreachable
  | s -> failwith ("bad err " ^ s)

let err_name = function
  | FloorDivisionByZero -> "FloorDivisionByZero" | ModuloByZero -> "ModuloByZero"
  | LeftShiftOverflow -> "LeftShiftOverflow" | LeftShiftNegative -> "LeftShiftNegative"
  | RightShiftNegative -> "RightShiftNegative" | Unreachable -> "Unreachable"

let show = function
  | OInt (big, v) -> (if big then "G " else "I ") ^ hex_of_z v
  | OBool b -> if b then "B 1" else "B 0"
  | OErr e -> "E " ^ err_name e

let () =
  let ic = open_in Sys.argv.(1) in
  let n = ref 0 in
  (try
     while true do
       let line = input_line ic in
       match String.split_on_char ' ' line with
       | [id; op; a; b; kind; v] ->
         incr n;
         let impl = match kind with
           | "I" -> OInt (false, z_of_hex v)
           | "G" -> OInt (true, z_of_hex v)
           | "B" -> OBool (v = "1")
           | "E" -> OErr (err_of v)
           | _ -> failwith "bad kind" in
         let m = run (op_of op) (z_of_hex a) (z_of_hex b) in
         if not (out_eqb m impl) then Printf.printf "%s %s\n" id (show m)
       | _ -> if String.trim line <> "" then failwith ("bad line: " ^ line)
     done
   with End_of_file -> ());
  Printf.printf "done %d\n" !n
