(* Line-oriented driver around the extracted C06 model (coq/Extract/ParseX.v).
   input line : <id> <tok> <tok> ...      tok = Token variant name, or Name:payload for
                                           Identifier / Int / Float / String / Other (payload = interned number)
   output line: <id> TAB <model> TAB <grammar, strict> TAB <grammar of the specification> TAB <print> TAB <reparse>
     model / grammar : canonical S-expression of the tree, or ERR<code> / OOF / UNMODELLED
     print           : tokens of Print.print_stmt applied to the model's tree ("-" when there is none)
     reparse         : SAME / DIFF / "-"  : the model run on the printed tokens gives the same tree
   Atoms are written #<number>; the Python side substitutes the spellings. *)
open Parse_model
type string = Stdlib.String.t   (* the extracted module defines its own `string` *)

let rec pos_of_int (i : int) : positive =
  if i = 1 then XH else if i land 1 = 1 then XI (pos_of_int (i lsr 1)) else XO (pos_of_int (i lsr 1))
let n_of_int (i : int) : n = if i = 0 then N0 else Npos (pos_of_int i)
let rec int_of_pos = function XH -> 1 | XO p -> 2 * int_of_pos p | XI p -> 2 * int_of_pos p + 1
let int_of_n = function N0 -> 0 | Npos p -> int_of_pos p

let token_of (s : string) : token =
  let name, pay =
    match String.index_opt s ':' with
    | Some i -> String.sub s 0 i, int_of_string (String.sub s (i + 1) (String.length s - i - 1))
    | None -> s, 0 in
  match name with
  | "Identifier" -> TIdentifier (n_of_int pay) | "Int" -> TInt (n_of_int pay) | "Float" -> TFloat (n_of_int pay)
  | "String" -> TString (n_of_int pay)
  | "Or" -> TOr | "And" -> TAnd | "Not" -> TNot | "In" -> TIn | "If" -> TIf | "Else" -> TElse | "Lambda" -> TLambda
  | "For" -> TFor | "EqualEqual" -> TEqualEqual | "BangEqual" -> TBangEqual | "LessThan" -> TLessThan
  | "GreaterThan" -> TGreaterThan | "LessEqual" -> TLessEqual | "GreaterEqual" -> TGreaterEqual | "Pipe" -> TPipe
  | "Caret" -> TCaret | "Ampersand" -> TAmpersand | "LessLess" -> TLessLess | "GreaterGreater" -> TGreaterGreater
  | "Plus" -> TPlus | "Minus" -> TMinus | "Star" -> TStar | "Percent" -> TPercent | "Slash" -> TSlash
  | "SlashSlash" -> TSlashSlash | "Tilde" -> TTilde | "StarStar" -> TStarStar | "Equal" -> TEqual | "Dot" -> TDot
  | "Comma" -> TComma | "Colon" -> TColon | "OpeningRound" -> TOpeningRound | "ClosingRound" -> TClosingRound
  | "OpeningSquare" -> TOpeningSquare | "ClosingSquare" -> TClosingSquare | "OpeningCurly" -> TOpeningCurly
  | "ClosingCurly" -> TClosingCurly
  | _ -> TOther (n_of_int pay)

let token_str (t : token) : string =
  let p n = ":" ^ string_of_int (int_of_n n) in
  match t with
  | TIdentifier n -> "Identifier" ^ p n | TInt n -> "Int" ^ p n | TFloat n -> "Float" ^ p n | TString n -> "String" ^ p n
  | TOr -> "Or" | TAnd -> "And" | TNot -> "Not" | TIn -> "In" | TIf -> "If" | TElse -> "Else" | TLambda -> "Lambda"
  | TFor -> "For" | TEqualEqual -> "EqualEqual" | TBangEqual -> "BangEqual" | TLessThan -> "LessThan"
  | TGreaterThan -> "GreaterThan" | TLessEqual -> "LessEqual" | TGreaterEqual -> "GreaterEqual" | TPipe -> "Pipe"
  | TCaret -> "Caret" | TAmpersand -> "Ampersand" | TLessLess -> "LessLess" | TGreaterGreater -> "GreaterGreater"
  | TPlus -> "Plus" | TMinus -> "Minus" | TStar -> "Star" | TPercent -> "Percent" | TSlash -> "Slash"
  | TSlashSlash -> "SlashSlash" | TTilde -> "Tilde" | TStarStar -> "StarStar" | TEqual -> "Equal" | TDot -> "Dot"
  | TComma -> "Comma" | TColon -> "Colon" | TOpeningRound -> "OpeningRound" | TClosingRound -> "ClosingRound"
  | TOpeningSquare -> "OpeningSquare" | TClosingSquare -> "ClosingSquare" | TOpeningCurly -> "OpeningCurly"
  | TClosingCurly -> "ClosingCurly" | TOther n -> "Other" ^ p n

let op_name = function
  | Or -> "Or" | And -> "And" | Equal -> "Equal" | NotEqual -> "NotEqual" | Less -> "Less" | Greater -> "Greater"
  | LessOrEqual -> "LessOrEqual" | GreaterOrEqual -> "GreaterOrEqual" | In -> "In" | NotIn -> "NotIn"
  | Subtract -> "Subtract" | Add -> "Add" | Multiply -> "Multiply" | Percent -> "Percent" | Divide -> "Divide"
  | FloorDivide -> "FloorDivide" | BitAnd -> "BitAnd" | BitOr -> "BitOr" | BitXor -> "BitXor"
  | LeftShift -> "LeftShift" | RightShift -> "RightShift"

let at n = "#" ^ string_of_int (int_of_n n)

let rec sx (b : Buffer.t) (e : expr) : unit =
  let add = Buffer.add_string b in
  let lst name l = add "("; add name; List.iter (fun x -> add " "; sx b x) l; add ")" in
  let opt = function None -> add " _" | Some x -> add " "; sx b x in
  match e with
  | EId n -> add "(id "; add (at n); add ")"
  | EInt n -> add "(int "; add (at n); add ")"
  | EFloat n -> add "(float "; add (at n); add ")"
  | EStr n -> add "(str "; add (at n); add ")"
  | ETuple l -> lst "tuple" l
  | EList l -> lst "list" l
  | EDict l -> add "(dict"; List.iter (fun (k, v) -> add " ("; sx b k; add " "; sx b v; add ")") l; add ")"
  | EDot (e, n) -> add "(dot "; sx b e; add " "; add (at n); add ")"
  | ECall (f, args) -> add "(call "; sx b f; List.iter (fun a -> add " "; sx_arg b a) args; add ")"
  | EIndex (e, i) -> lst "index" [e; i]
  | EIndex2 (e, i, j) -> lst "index2" [e; i; j]
  | ESlice (e, a1, a2, a3) -> add "(slice "; sx b e; opt a1; opt a2; opt a3; add ")"
  | ELambda (ps, body) ->
    add "(lambda ("; List.iteri (fun i p -> if i > 0 then add " "; sx_param b p) ps; add ") "; sx b body; add ")"
  | ENot e -> lst "not" [e]
  | EMinus e -> lst "uminus" [e]
  | EPlus e -> lst "uplus" [e]
  | EBitNot e -> lst "invert" [e]
  | EOp (l, op, r) -> add "(op "; add (op_name op); add " "; sx b l; add " "; sx b r; add ")"
  | EIf (c, t, f) -> lst "if" [c; t; f]
  | EListComp (e, cs) -> add "(listcomp "; sx b e; List.iter (fun c -> add " "; sx_clause b c) cs; add ")"
  | EDictComp (k, v, cs) ->
    add "(dictcomp "; sx b k; add " "; sx b v; List.iter (fun c -> add " "; sx_clause b c) cs; add ")"
and sx_arg b = function
  | APos e -> Buffer.add_string b "(pos "; sx b e; Buffer.add_string b ")"
  | ANamed (n, e) -> Buffer.add_string b ("(named " ^ at n ^ " "); sx b e; Buffer.add_string b ")"
  | AArgs e -> Buffer.add_string b "(star "; sx b e; Buffer.add_string b ")"
  | AKwArgs e -> Buffer.add_string b "(starstar "; sx b e; Buffer.add_string b ")"
and sx_param b = function
  | PNormal (n, None) -> Buffer.add_string b ("(p " ^ at n ^ ")")
  | PNormal (n, Some d) -> Buffer.add_string b ("(p " ^ at n ^ " "); sx b d; Buffer.add_string b ")"
  | PNoArgs -> Buffer.add_string b "(star)"
  | PSlash -> Buffer.add_string b "(slash)"
  | PArgs n -> Buffer.add_string b ("(args " ^ at n ^ ")")
  | PKwArgs n -> Buffer.add_string b ("(kwargs " ^ at n ^ ")")
and sx_clause b = function
  | CFor (t, o) -> Buffer.add_string b "(for "; sx b t; Buffer.add_string b " "; sx b o; Buffer.add_string b ")"
  | CIf e -> Buffer.add_string b "(cif "; sx b e; Buffer.add_string b ")"

let show (r : stmt res) : string =
  match r with
  | Ok s ->
    let b = Buffer.create 256 in
    (match s with
     | SExpr e -> Buffer.add_string b "(expr "; sx b e; Buffer.add_string b ")"
     | SAssign (l, r) -> Buffer.add_string b "(assign "; sx b l; Buffer.add_string b " "; sx b r; Buffer.add_string b ")");
    Buffer.contents b
  | Err c -> "ERR" ^ string_of_int (int_of_n c)
  | Oof -> "OOF"
  | Unmodelled -> "UNMODELLED"

let () =
  let ic = open_in Sys.argv.(1) in
  let n = ref 0 in
  (try
     while true do
       let line = input_line ic in
       if String.trim line <> "" then begin
         incr n;
         match String.split_on_char ' ' (String.trim line) with
         | id :: ts ->
           let toks = List.map token_of (List.filter (fun s -> s <> "") ts) in
           let m = run_model toks in
           let g = run_grammar_strict toks in
           let gf = run_grammar toks in
           let pr, rt =
             match m with
             | Ok s ->
               let p = run_print s in
               let again = run_model p in
               String.concat " " (List.map token_str p), (if again = m then "SAME" else "DIFF:" ^ show again)
             | _ -> "-", "-" in
           Printf.printf "%s\t%s\t%s\t%s\t%s\t%s\n" id (show m) (show g) (show gf) pr rt
         | [] -> ()
       end
     done
   with End_of_file -> ());
  Printf.printf "done %d\n" !n
