(* Line-oriented driver around the extracted C15 model (coq/Limits/{Model,Cases}.v).
   input line :  <id> <D|-> <L|-> <K|-> <prog> { | <prog> }
     prog in prefix form:  S            Skip
                           E <k>        Emit k
                           Q <a> <b>    Seq a b
                           L <n> <b>    Loop n b
                           F1 <b>       Frame true b      F0 <b>   Frame false b
   output     :  <id> <step> ; <step> ...      step = <code>:<ticks>:<depth>:<limit|->:<k,k,...>
                 code: ok | overflow | ticklimit | cancelled
                 followed by  " # " <ticks p>:<max_depth p>:<emits p> for every program (specification functions)
   last line  :  done <n> *)
open Limits_model

let rec nat_of_int n acc = if n <= 0 then acc else nat_of_int (n - 1) (S acc)
let nat_of_int n = nat_of_int n O
let int_of_nat n = let rec go n acc = match n with O -> acc | S m -> go m (acc + 1) in go n 0

let opt_of s = if s = "-" then None else Some (nat_of_int (int_of_string s))

let parse_prog (toks : string array) (i : int ref) : prog =
  let next () = let t = toks.(!i) in incr i; t in
  let rec go () =
    match next () with
    | "S" -> Skip
    | "E" -> let k = int_of_string (next ()) in Emit (nat_of_int k)
    | "Q" -> let a = go () in let b = go () in Seq (a, b)
    | "L" -> let n = int_of_string (next ()) in let b = go () in Loop (nat_of_int n, b)
    | "F1" -> let b = go () in Frame (true, b)
    | "F0" -> let b = go () in Frame (false, b)
    | t -> failwith ("bad token " ^ t) in
  go ()

let str_list l = String.concat "," (List.map (fun k -> string_of_int (int_of_nat k)) l)

let show_obs (o : obs) : string =
  let code, lim = match o.o_res with
    | Ok -> "ok", "-"
    | Err StackOverflow -> "overflow", "-"
    | Err (TickLimit l) -> "ticklimit", string_of_int (int_of_nat l)
    | Err Cancelled -> "cancelled", "-" in
  Printf.sprintf "%s:%d:%d:%s:%s" code (int_of_nat o.o_ticks) (int_of_nat o.o_depth) lim (str_list o.o_trace)

let () =
  let ic = open_in Sys.argv.(1) in
  let n = ref 0 in
  (try
     while true do
       let line = input_line ic in
       if String.trim line <> "" then begin
         let toks = Array.of_list (List.filter (fun s -> s <> "") (String.split_on_char ' ' line)) in
         let id = toks.(0) in
         let d = opt_of toks.(1) and l = opt_of toks.(2) and k = opt_of toks.(3) in
         let i = ref 4 in
         let progs = ref [] in
         while !i < Array.length toks do
           if toks.(!i) = "|" then incr i;
           progs := parse_prog toks i :: !progs
         done;
         let progs = List.rev !progs in
         let obs = run_case d l k progs in
         let fs = List.map (fun p -> let ((t, md), em) = facts p in
                             Printf.sprintf "%d:%d:%s" (int_of_nat t) (int_of_nat md) (str_list em)) progs in
         Printf.printf "%s %s # %s\n" id (String.concat " ; " (List.map show_obs obs)) (String.concat " ; " fs);
         incr n
       end
     done
   with End_of_file -> ());
  Printf.printf "done %d\n" !n
