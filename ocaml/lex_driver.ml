(* Line-oriented driver around the extracted lexer model (coq/Extract/LexX.v).
   input line :  <id> <scalar value in hex> <scalar value in hex> ...
   output     :  <id> TAB <tokens> | <error>
     tokens = `Kind l r payload` joined by `;`  (Kind = T<index into token_spellings> for `#[token]` variants,
     payload = hex of the decoded UTF-8 text / bytes for String, FStringText, Bytes, the quote style for FStringStart)
     error  = `-` or `Kind l r`                                                                           *)
open Lex_model

let rec pos_of_int (i : int) : positive =
  if i = 1 then XH else if i land 1 = 1 then XI (pos_of_int (i lsr 1)) else XO (pos_of_int (i lsr 1))
let n_of_int (i : int) : n = if i = 0 then N0 else Npos (pos_of_int i)
let rec int_of_pos = function XH -> 1 | XO p -> 2 * int_of_pos p | XI p -> 2 * int_of_pos p + 1
let int_of_n = function N0 -> 0 | Npos p -> int_of_pos p

let hex_bytes (b : Buffer.t) (l : n list) = List.iter (fun x -> Buffer.add_string b (Printf.sprintf "%02x" (int_of_n x land 255))) l

let hex_utf8 (b : Buffer.t) (l : n list) =
  List.iter (fun c ->
      let c = int_of_n c in
      let put x = Buffer.add_string b (Printf.sprintf "%02x" x) in
      if c < 0x80 then put c
      else if c < 0x800 then (put (0xC0 lor (c lsr 6)); put (0x80 lor (c land 0x3F)))
      else if c < 0x10000 then (put (0xE0 lor (c lsr 12)); put (0x80 lor ((c lsr 6) land 0x3F)); put (0x80 lor (c land 0x3F)))
      else (put (0xF0 lor (c lsr 18)); put (0x80 lor ((c lsr 12) land 0x3F)); put (0x80 lor ((c lsr 6) land 0x3F)); put (0x80 lor (c land 0x3F))))
    l

let ekind_name = function
  | EIndentation -> "Indentation" | EInvalidInput -> "InvalidInput" | EInvalidTab -> "InvalidTab"
  | EUnfinishedStringLiteral -> "UnfinishedStringLiteral" | EInvalidEscapeSequence -> "InvalidEscapeSequence"
  | EInvalidEscapeSequenceF -> "InvalidEscapeSequence" | EEmptyEscapeSequence -> "EmptyEscapeSequence"
  | EReservedKeyword -> "ReservedKeyword" | EStartsZero -> "StartsZero"
  | EUnfinishedFStringExpression -> "UnfinishedFStringExpression" | EFuel -> "FUEL"

let show_tok (b : Buffer.t) (((l, k), r) : lexeme) =
  let name, payload =
    match k with
    | KTok i -> ("T" ^ string_of_int (int_of_n i), fun () -> ())
    | KComment -> ("Comment", fun () -> ()) | KNewline -> ("Newline", fun () -> ())
    | KIndent -> ("Indent", fun () -> ()) | KDedent -> ("Dedent", fun () -> ())
    | KIdentifier -> ("Identifier", fun () -> ()) | KInt -> ("Int", fun () -> ()) | KFloat -> ("Float", fun () -> ())
    | KString s -> ("String", fun () -> hex_utf8 b s)
    | KBytes s -> ("Bytes", fun () -> hex_bytes b s)
    | KFStringStart q ->
      ("FStringStart", fun () -> Buffer.add_string b (match int_of_n q with 0 -> "Single" | 1 -> "Double" | 2 -> "TripleSingle" | _ -> "TripleDouble"))
    | KFStringText s -> ("FStringText", fun () -> hex_utf8 b s)
    | KFStringExprStart -> ("FStringExprStart", fun () -> ()) | KFStringExprEnd -> ("FStringExprEnd", fun () -> ())
    | KFStringBang -> ("FStringBang", fun () -> ()) | KFStringEnd -> ("FStringEnd", fun () -> ()) in
  Buffer.add_string b (Printf.sprintf "%s %d %d " name (int_of_n l) (int_of_n r));
  payload ()

let () =
  let ic = open_in Sys.argv.(1) in
  let n = ref 0 in
  (try
     while true do
       let line = input_line ic in
       if String.trim line <> "" then begin
         incr n;
         match String.split_on_char ' ' (String.trim line) with
         | [] -> ()
         | id :: cps ->
           let input = List.map (fun h -> n_of_int (int_of_string ("0x" ^ h))) (List.filter (fun s -> s <> "") cps) in
           let toks, err = lex input in
           let b = Buffer.create 256 in
           List.iteri (fun i t -> if i > 0 then Buffer.add_char b ';'; show_tok b t) toks;
           Buffer.add_char b '|';
           (match err with
            | None -> Buffer.add_char b '-'
            | Some ((e, l), r) -> Buffer.add_string b (Printf.sprintf "%s %d %d" (ekind_name e) (int_of_n l) (int_of_n r)));
           Printf.printf "%s\t%s\n" id (Buffer.contents b)
       end
     done
   with End_of_file -> ());
  Printf.printf "done %d\n" !n
