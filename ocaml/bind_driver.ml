(* Line-oriented driver around the extracted C08 model (coq/Extract/BindX.v -> bind_model.ml).
   input line :  <id> <sig> <pos> <named> <star> <kw>        (space separated, no spaces inside a field)
     sig   : `-` or comma-separated  kind:name:default   kind in po,pk,va,ko,vk ; name an int ; default an int or `-`
     pos   : `-` or comma-separated ints
     named : `-` or comma-separated  name=val
     star  : `N` (absent) or `S` followed by comma-separated ints (possibly none)
     kw    : `N` (absent) or `K` followed by comma-separated  name=val  /  #=val (non-string key)
   output line:  <id> <wf 0/1> <fast 0/1> M=<outcome> L=<outcome> S=<outcome>
     M = collect (fast path + slow path), L = collect_slow alone, S = the specification
     outcome = OK:<slot>/<slot>/...  with slot  v5 | t[1,2] | d{3=5,4=6} | none   or   ERR:<class>
   last line  :  done <n> *)
open Bind_model

let rec nat_of_int n = if n <= 0 then O else S (nat_of_int (n - 1))
let rec int_of_nat = function O -> 0 | S n -> 1 + int_of_nat n

let split_nonempty c s = if s = "" then [] else String.split_on_char c s

let kind_of_string = function
  | "po" -> PosOnly | "pk" -> PosOrKw | "va" -> VarArgs | "ko" -> KwOnly | "vk" -> VarKw
  | s -> failwith ("bad kind " ^ s)

let parse_sig s =
  if s = "-" then [] else
  List.map (fun f -> match String.split_on_char ':' f with
    | [k; n; d] -> { pname = nat_of_int (int_of_string n); pkd = kind_of_string k;
                     pdef = (if d = "-" then None else Some (nat_of_int (int_of_string d))) }
    | _ -> failwith ("bad param " ^ f)) (String.split_on_char ',' s)

let parse_ints s = List.map (fun x -> nat_of_int (int_of_string x)) (split_nonempty ',' s)

let parse_pair f = match String.split_on_char '=' f with
  | [n; v] -> (n, nat_of_int (int_of_string v))
  | _ -> failwith ("bad pair " ^ f)

let parse_named s =
  if s = "-" then [] else
  List.map (fun f -> let (n, v) = parse_pair f in (nat_of_int (int_of_string n), v)) (String.split_on_char ',' s)

let parse_star s =
  if s = "N" then None else Some (parse_ints (String.sub s 1 (String.length s - 1)))

let parse_kw s =
  if s = "N" then None else
  Some (List.map (fun f -> let (n, v) = parse_pair f in
                   ((if n = "#" then KOther else KStr (nat_of_int (int_of_string n))), v))
          (split_nonempty ',' (String.sub s 1 (String.length s - 1))))

let show_ints l = String.concat "," (List.map (fun v -> string_of_int (int_of_nat v)) l)
let show_slotval = function
  | SVal v -> "v" ^ string_of_int (int_of_nat v)
  | STuple vs -> "t[" ^ show_ints vs ^ "]"
  | SDict kvs -> "d{" ^ String.concat "," (List.map (fun (k, v) ->
        string_of_int (int_of_nat k) ^ "=" ^ string_of_int (int_of_nat v)) kvs) ^ "}"
let show_slot = function None -> "none" | Some x -> show_slotval x
let show_err = function
  | ERepeated n -> "repeated:" ^ string_of_int (int_of_nat n)
  | ENotString -> "notstring"
  | EMissing (k, n) -> "missing:" ^ (match k with MPosOnly -> "po" | MNamedOnly -> "ko" | MPlain -> "pk")
                       ^ ":" ^ string_of_int (int_of_nat n)
  | EExtraPos k -> "extrapos:" ^ string_of_int (int_of_nat k)
  | EExtraNamed ns -> "extranamed:" ^ show_ints ns
let show_result = function
  | Ok sl -> "OK:" ^ String.concat "/" (List.map show_slot sl)
  | Err e -> "ERR:" ^ show_err e
let show_spec = function
  | Some l -> "OK:" ^ String.concat "/" (List.map show_slotval l)
  | None -> "ERR:fails"

let () =
  let ic = open_in Sys.argv.(1) in
  let n = ref 0 in
  (try
     while true do
       let line = input_line ic in
       if String.trim line <> "" then begin
         match String.split_on_char ' ' line with
         | [id; sg; pos; named; star; kw] ->
           incr n;
           let s = parse_sig sg in
           let c = { c_pos = parse_ints (if pos = "-" then "" else pos); c_named = parse_named named;
                     c_star = parse_star star; c_kw = parse_kw kw } in
           let o = run s c in
           Printf.printf "%s %d %d M=%s L=%s S=%s\n" id (if o.o_wf then 1 else 0) (if o.o_fast then 1 else 0)
             (show_result o.o_model) (show_result o.o_slow) (show_spec o.o_spec)
         | _ -> failwith ("bad line: " ^ line)
       end
     done
   with End_of_file -> ());
  Printf.printf "done %d\n" !n
